import FxVerif.Model.C01
import FxVerif.Model.C01Gen
import FxVerif.Model.Util
/-! line-protocol driver for the C01/C02 model: `lake env lean --run Driver/C01.lean < ops.txt`

ops (all numbers decimal; lists comma separated, `-` = empty):
  reset <threshold> <multiple> <slashFracMantissa> [<chain> <signedWindow> <nOracles>]
  claim <wrapperBridger> <innerBridger> <nonce> <hashId> <kind: p | c | r | o | e | s:<extIds> | x | x:<extIds>> <extHeight>
  tx <slashed> <oracleSetReq> <bond … | adddel … | unbond … | nop>   the registry message as a signed transaction + that block's end blocker
  txclaim <wrapperBridger> <innerBridger> <nonce> <hashId> <kind> <extHeight> <slashed> <oracleSetReq>   the claim as a signed transaction + that block's end blocker
  bond <oracle> <bridger> <ext> <amount> <dep>
  adddel <oracle> <amount> <dep>
  editbr <oracle> <bridger>
  unbond <oracle> <ubd> <bal> <dep>
  gov <oracles> <dep>
  endblock <slashed> <oracleSetReq> [<blocks>]
  genesis                                         export the module state, start a fresh store from that genesis (InitGenesis)
  save | load                                     small-scope enumeration: remember / restore the model state (answer `ok`)
  exec <nonce> <outcome: o | r | f> <forest>      forest ::= [ call , call , ... ]    call ::= <nonce>:<outcome><forest>
       e.g.  exec 1 o [1:o[],2:r[3:o[]],3:o[]]   (the calls the called-back contracts make, in order)
answer: `<out> lo=.. tp=.. ln=.. or=.. bb=.. be=.. prop=.. atts=.. pend=.. ex=.. ev=..` (maps in key order; ev = nonce/hash observed by this op; ex = nonce:times its
deferred effects are in force)
-/
open FxVerif FxVerif.Util FxVerif.Model.C01

def natList? (w : String) : Option (List Nat) :=
  if w == "-" then some [] else (w.splitOn ",").mapM (fun x => x.toNat?)

def bool? (w : String) : Option Bool :=
  if w == "1" then some true else if w == "0" then some false else none

def kind? (w : String) : Option Kind :=
  if w == "p" || w == "c" || w == "r" then some .pending   -- send-to-fx / bridge-call / bridge-call-result claim: all parked for later execution
  else if w == "o" then some .other
  else if w == "e" then some .other                                  -- send-to-external (batch executed) claim whose batch is in the store
  else if w.startsWith "s:" then (natList? (w.drop 2).toString).map Kind.oracleSet
  else if w == "x" then some (.panics [])                            -- handler panics when run (batch not in the store)
  else if w.startsWith "x:" then (natList? (w.drop 2).toString).map Kind.panics   -- oracle-set claim contradicting the stored set
  else none

def outcome? (c : Char) : Option Outcome :=
  if c == 'o' then some .ok else if c == 'r' then some .refund else if c == 'f' then some .fail else none

/-- digits at the head of a character list -/
def takeNat (cs : List Char) : Option (Nat × List Char) :=
  let ds := cs.takeWhile Char.isDigit
  if ds.isEmpty then none else (String.ofList ds).toNat?.map (fun n => (n, cs.drop ds.length))

mutual
/-- `[` call (`,` call)* `]` -/
def parseForest : Nat → List Char → Option (Calls × List Char)
  | 0, _ => none
  | fuel + 1, '[' :: ']' :: rest => let _ := fuel; some (.nil, rest)
  | fuel + 1, '[' :: rest => parseCalls fuel rest
  | _, _ => none
/-- call (`,` call)* `]` as a first-child / next-sibling chain -/
def parseCalls : Nat → List Char → Option (Calls × List Char)
  | 0, _ => none
  | fuel + 1, cs =>
    match takeNat cs with
    | some (n, ':' :: oc :: rest) =>
      match outcome? oc, parseForest fuel rest with
      | some o, some (inner, rest2) =>
        match rest2 with
        | ',' :: rest3 => (parseCalls fuel rest3).map (fun (next, r) => (.call n o inner next, r))
        | ']' :: rest3 => some (.call n o inner .nil, rest3)
        | _ => none
      | _, _ => none
    | _ => none
end

def forest? (w : String) : Option Calls :=
  match parseForest (w.length + 2) w.toList with
  | some (c, []) => some c
  | _ => none

def parseOp (ws : List String) : Option Op :=
  match ws with
  | ["claim", w, i, n, h, k, e] => do
    pure (.claim (← w.toNat?) (← i.toNat?) (← n.toNat?) (← h.toNat?) (← kind? k) (← e.toNat?))
  | ["bond", o, b, e, a, d] => do pure (.bond (← o.toNat?) (← b.toNat?) (← e.toNat?) (← a.toNat?) (← bool? d))
  | ["adddel", o, a, d] => do pure (.addDelegate (← o.toNat?) (← a.toNat?) (← bool? d))
  | ["editbr", o, b] => do pure (.editBridger (← o.toNat?) (← b.toNat?))
  | ["unbond", o, u, bal, d] => do pure (.unbond (← o.toNat?) (← bool? u) (← bal.toNat?) (← bool? d))
  | ["gov", l, d] => do pure (.gov (← natList? l) (← bool? d))
  | ["endblock", l, r] => do pure (.endBlock (← natList? l) (← bool? r))
  | ["endblock", l, r, _blocks] => do pure (.endBlock (← natList? l) (← bool? r))
  | ["exec", n, o, c] => do pure (.exec (← n.toNat?) (← (match o.toList with | [ch] => outcome? ch | _ => none)) (← forest? c))
  | _ => none

def showOut : Out → String
  | .ok => "ok" | .signerMismatch => "err:signer-mismatch" | .noOracle => "err:no-oracle" | .offline => "err:offline"
  | .invalid => "err:invalid" | .nonContiguous => "err:non-contiguous" | .belowMin => "err:below-min"
  | .aboveMax => "err:above-max" | .dep => "err:dep" | .notFound => "err:not-found" | .execFailed => "err:exec-failed"
  | .panicked => "panic" | .undeliverable => "err:undeliverable"

def joinOr (xs : List String) (sep : String) : String := if xs.isEmpty then "-" else sep.intercalate xs

def sortNat (l : List Nat) : List Nat := l.mergeSort (fun a b => a ≤ b)

def sortMap {α : Type} (m : Map α) : Map α := m.mergeSort (fun a b => a.1 ≤ b.1)

def b2s (b : Bool) : String := if b then "1" else "0"

/-- nonce:count for every nonce in the execution log -/
def showEx (l : List Nat) : String :=
  let ks := (sortNat l).eraseDups
  joinOr (ks.map fun k => s!"{k}:{l.count k}") ","

def showState (s : State) : String :=
  let ln := (sortMap s.lastNonce).map fun p => s!"{p.1}:{p.2}"
  let ors := (sortMap s.oracles).map fun p => s!"{p.1}:{p.2.bridger}:{p.2.ext}:{p.2.stake}:{b2s p.2.online}:{p.2.slashTimes}"
  let bb := (sortMap s.byBridger).map fun p => s!"{p.1}:{p.2}"
  let be := (sortMap s.byExt).map fun p => s!"{p.1}:{p.2}"
  let atts := (s.atts.mergeSort (fun a b => a.nonce < b.nonce || (a.nonce == b.nonce && a.hash ≤ b.hash))).map fun a =>
    s!"{a.nonce}/{a.hash}/{joinOr (a.votes.map toString) "."}/{b2s a.observed}"
  s!"lo={s.lastObserved} tp={s.lastTotalPower} ln={joinOr ln ","} or={joinOr ors ","} bb={joinOr bb ","} be={joinOr be ","} " ++
  s!"prop={joinOr ((sortNat s.proposal).map toString) ","} atts={joinOr atts ";"} pend={joinOr ((sortNat s.pending).map toString) ","} ex={showEx s.executedLog}"

/-- driver state: the model state and the state remembered by `save` -/
structure DS where
  cur : State
  saved : State

def stepLine (d : DS) (line : String) : DS × String :=
  let s := d.cur
  match words line with
  | "reset" :: rest =>
    match rest with
    | t :: m :: f :: _ =>   -- further fields (chain, signed window, #oracles) only matter to the harness
      match t.toNat?, m.toNat?, f.toNat? with
      | some t, some m, some f => ({ d with cur := init { threshold := t, multiple := m, slashFrac := f } }, "ok")
      | _, _, _ => (d, "bad-op")
    | [] => ({ d with cur := init {} }, "ok")
    | _ => (d, "bad-op")
  | ["save"] => ({ d with saved := s }, "ok")
  | ["load"] => ({ d with cur := d.saved }, "ok")
  | ["genesis"] =>
    let (s', o) := gstep s .genesis
    ({ d with cur := s' }, showOut o ++ " " ++ showState s' ++ " ev=-")
  | ["txclaim", w, i, n, h, k, _e, sl, osr] =>
    -- a signed MsgClaim transaction in a block of its own, then that block's end blocker
    match w.toNat?, i.toNat?, n.toNat?, h.toNat?, kind? k, natList? sl, bool? osr with
    | some w, some i, some n, some h, some k, some sl, some osr =>
      let (s1, o) := txClaimStep s w i n h k
      let (s', _) := endBlockStep s1 sl osr
      let added := s'.observedLog.drop s.observedLog.length
      let ev := if added.isEmpty then "-" else "+".intercalate (added.map fun p => s!"{p.1}/{p.2}")
      ({ d with cur := s' }, showOut o ++ " " ++ showState s' ++ " ev=" ++ ev)
    | _, _, _, _, _, _, _ => (d, "bad-op")
  | "tx" :: sl :: osr :: rest =>
    -- a registry message delivered as a signed transaction in a block of its own, then that block's end blocker;
    -- `nop`: the transaction was refused by the ante handler (not signed by the oracle account, fee not payable)
    match natList? sl, bool? osr with
    | some sl, some osr =>
      let r : Option (State × String) :=
        if rest == ["nop"] then some (s, "err:refused")
        else match parseOp rest with
          | some (.bond o b e a dd) => some ((step s (.bond o b e a dd)).1, showOut (step s (.bond o b e a dd)).2)
          | some (.addDelegate o a dd) => some ((step s (.addDelegate o a dd)).1, showOut (step s (.addDelegate o a dd)).2)
          | some (.unbond o u bal dd) => some ((step s (.unbond o u bal dd)).1, showOut (step s (.unbond o u bal dd)).2)
          | _ => none
      match r with
      | some (s1, o) =>
        let (s', _) := endBlockStep s1 sl osr
        ({ d with cur := s' }, o ++ " " ++ showState s' ++ " ev=-")
      | none => (d, "bad-op")
    | _, _ => (d, "bad-op")
  | ws =>
    match parseOp ws with
    | some op =>
      let (s', o) := step s op
      -- ev = the (nonce, hash id) entries this step appended to the observation log
      let added := s'.observedLog.drop s.observedLog.length
      let ev := if added.isEmpty then "-" else "+".intercalate (added.map fun p => s!"{p.1}/{p.2}")
      ({ d with cur := s' }, showOut o ++ " " ++ showState s' ++ " ev=" ++ ev)
    | none => (d, "bad-op")

def main : IO Unit := runDriver stepLine { cur := init {}, saved := init {} }
