import FxVerif.Model.C14
import FxVerif.Model.C14Acct
import FxVerif.Model.Util
/-! line-protocol driver for the C14 model: `lake env lean --run Driver/C14.lean < ops.txt` -/
open FxVerif FxVerif.Util FxVerif.Model.C14

def sortShow (tag : String) (items : List (List Nat × String)) : String :=
  tag ++ "[" ++ " ".intercalate ((items.mergeSort (fun a b => bytesLe a.1 b.1)).map (·.2)) ++ "]"

def showEntries (es : List (Time × Nat × Nat)) : String :=
  ";".intercalate (es.map fun e => s!"{e.1}:{e.2.1}:{e.2.2}")

/-- accounts whose balances are observed: users / targets (< 100) and the bonded, not-bonded and gov pools -/
def observed (a : Addr) : Bool := a < 100 || a == bondedPool || a == notBondedPool || a == govMod

def showStateS (s : State) : String :=
  " ".intercalate [
    s!"T={s.now}",
    sortShow "B" ((s.bal.filter (fun p => observed p.1.1)).map fun p => ([p.1.1, p.1.2], s!"{p.1.1}/{p.1.2}={p.2}")),
    sortShow "VT" (s.valTok.map fun p => ([p.1], s!"{p.1}={p.2}")),
    sortShow "D" ((s.dels.filter (fun p => p.1.1 < 100)).map fun p => ([p.1.1, p.1.2], s!"{p.1.1}/{p.1.2}={p.2}")),
    sortShow "DI" ((s.delIdx.filter (fun p => p.2 < 100)).map fun p => ([p.1, p.2], s!"{p.1}/{p.2}")),
    sortShow "SI" ((s.startInfo.filter (fun p => p.1.2 < 100)).map fun p => ([p.1.1, p.1.2], s!"{p.1.1}/{p.1.2}={p.2.1}/{p.2.2}")),
    sortShow "U" (s.ubds.map fun p => ([p.1.1, p.1.2], s!"{p.1.1}/{p.1.2}={showEntries p.2}")),
    sortShow "UI" (s.ubdIdx.map fun p => ([p.1, p.2], s!"{p.1}/{p.2}")),
    sortShow "UQ" (s.ubdQ.map fun p => ([p.1], s!"{p.1}=" ++ ";".intercalate (p.2.map fun x => s!"{x.1}/{x.2}"))),
    sortShow "R" (s.reds.map fun p => ([p.1.1, p.1.2.1, p.1.2.2], s!"{p.1.1}/{p.1.2.1}/{p.1.2.2}={showEntries p.2}")),
    sortShow "RS" (s.redSrcIdx.map fun p => ([p.1, p.2.1, p.2.2], s!"{p.1}/{p.2.1}/{p.2.2}")),
    sortShow "RD" (s.redDstIdx.map fun p => ([p.1, p.2.1, p.2.2], s!"{p.1}/{p.2.1}/{p.2.2}")),
    sortShow "RQ" (s.redQ.map fun p => ([p.1], s!"{p.1}=" ++ ";".intercalate (p.2.map fun x => s!"{x.1}/{x.2.1}/{x.2.2}"))),
    sortShow "ID" (s.unbId.map fun p => ([p.1], s!"{p.1}={p.2.1}/{p.2.2.1}/" ++ (match p.2.2.2 with | some d => toString d | none => "-"))),
    sortShow "W" (s.wdAddr.map fun p => ([p.1], s!"{p.1}={p.2}")),
    sortShow "P" (s.props.map fun p => ([p.1], s!"{p.1}={p.2.proposer}/{p.2.status}/{p.2.total}")),
    sortShow "DP" (s.deposits.map fun p => ([p.1.1, p.1.2], s!"{p.1.1}/{p.1.2}={p.2}")),
    sortShow "V" (s.votes.map fun p => ([p.1, p.2], s!"{p.1}/{p.2}")),
    sortShow "IQ" (s.inactiveQ.map fun p => ([p.1, p.2], s!"{p.1}/{p.2}")),
    sortShow "AQ" (s.activeQ.map fun p => ([p.1, p.2], s!"{p.1}/{p.2}")),
    sortShow "M" (s.recs.map fun p => ([p.1], s!"{p.1}=" ++ (if p.2.1 then "F" else "T") ++ s!"/{p.2.2}")),
    sortShow "MF" (s.dirFrom.map fun a => ([a], s!"{a}")),
    sortShow "MT" (s.dirTo.map fun a => ([a], s!"{a}")),
    sortShow "L" ((s.vest.flatMap fun p => (p.2.orig.map (·.1)).eraseDups.filterMap fun d =>
      let l := lockedOf s p.1 d
      if l > 0 then some ([p.1, d], s!"{p.1}/{d}={l}") else none))
  ]

/-- the store-level state, then the observed addresses (users / targets) that exist as accounts -/
def showState (a : AState) : String :=
  showStateS a.s ++ " " ++ sortShow "AC" (((a.accts.filter (· < 100)).eraseDups).map fun x => ([x], s!"{x}"))

def nat? (w : String) : Option Nat := w.toNat?

def pfxBytes : List Nat := Gen.C14.signaturePrefix.toList.map Char.toNat

/-- ideal signatures: a signature is (signer, signed bytes); `hash` is the identity; `recover` returns the signer iff the
bytes match.  `order` is the order the *signer* used: "ft" = prefix,from,to (what the property demands); "tf" swapped. -/
def sigOkOf (frm to signer : Nat) (order : String) : Bool :=
  if signer == 0 then false else
  let fields := if order == "ft" then ["prefix", "from", "to"] else ["prefix", "to", "from"]
  let sig : Nat × List Nat := (signer, signedBytes fields pfxBytes (fun a => [a]) frm to)
  sigAccepted (H := List Nat) (S := Nat × List Nat) id (fun h sg => if sg.2 == h then some sg.1 else none)
    pfxBytes (fun a => [a]) frm to sig

/-- `d:amt,d:amt` or `-` -/
def parseCoins (w : String) : Option (List (Denom × Nat)) :=
  if w == "-" then some [] else
  (w.splitOn ",").mapM fun c =>
    match c.splitOn ":" with
    | [d, n] => do some ((← nat? d), (← nat? n))
    | _ => none

/-- `len/coins;len/coins` or `-` -/
def parsePeriods (w : String) : Option (List (Nat × List (Denom × Nat))) :=
  if w == "-" then some [] else
  (w.splitOn ";").mapM fun c =>
    match c.splitOn "/" with
    | [l, cs] => do some ((← nat? l), (← parseCoins cs))
    | _ => none

def parseOp (ws : List String) : Option Op :=
  match ws with
  | ["send", a, b, d, n] => do some (.send (← nat? a) (← nat? b) (← nat? d) (← nat? n))
  | ["mint", a, d, n] => do some (.mint (← nat? a) (← nat? d) (← nat? n))
  | ["delegate", d, v, amt, rw] => do some (.delegate (← nat? d) (← nat? v) (← nat? amt) (← nat? rw))
  | ["undelegate", d, v, amt, rw] => do some (.undelegate (← nat? d) (← nat? v) (← nat? amt) (← nat? rw))
  | ["redelegate", d, s, t, amt, r1, r2] =>
    do some (.redelegate (← nat? d) (← nat? s) (← nat? t) (← nat? amt) (← nat? r1) (← nat? r2))
  | ["withdraw", d, v, rw] => do some (.withdraw (← nat? d) (← nat? v) (← nat? rw))
  | ["setwd", d, w] => do some (.setWithdraw (← nat? d) (← nat? w))
  | ["submit", a, dep] => do some (.submit (← nat? a) (← nat? dep))
  | ["deposit", a, id, amt] => do some (.deposit (← nat? a) (← nat? id) (← nat? amt))
  | ["vote", a, id] => do some (.vote (← nat? a) (← nat? id))
  | ["block", dt] => do some (.block (← nat? dt))
  | ["setperiods", dp, vp] => do some (.setPeriods (← nat? dp) (← nat? vp))
  | ["setunbond", n] => do some (.setUnbond (← nat? n))
  | ["migrate", f, t, signer, order] =>
    do let f ← nat? f; let t ← nat? t; let sg ← nat? signer
       if order == "ft" || order == "tf" then some (.migrate f t (sigOkOf f t sg order)) else none
  | _ => none

def modAccts : List Addr := [bondedPool, notBondedPool, feeCollector, govMod]

def stepLine (a : AState) (line : String) : AState × String :=
  let s := a.s
  match words line with
  | ["reset", ub, dp, vp, md, me, nu, np] =>
    match nat? ub, nat? dp, nat? vp, nat? md, nat? me, nat? nu, nat? np with
    | some ub, some dp, some vp, some md, some me, some nu, some np =>
      ({ s := { unbondTime := ub, depPeriod := dp, votePeriod := vp, minDeposit := md, maxEntries := me,
                nextUnbId := nu, blockFirstId := nu, nextProp := np }, accts := modAccts }, "ok")
    | _, _, _, _, _, _, _ => (a, "bad-op")
  | "reset" :: _ => ({ accts := modAccts }, "ok")
  | ["val", v, tok, per] =>
    match nat? v, nat? tok, nat? per with
    | some v, some tok, some per =>
      ({ a with s := { s with vals := ins s.vals v, valTok := put s.valTok v tok, period := put s.period v per } }, "ok")
    | _, _, _ => (a, "bad-op")
  | ["vest", x, k, st, en, orig, per] =>
    match nat? x, nat? k, nat? st, nat? en, parseCoins orig, parsePeriods per with
    | some x, some k, some st, some en, some orig, some per =>
      ({ a with s := { s with vest := put s.vest x { kind := k, start := st, stop := en, orig := orig, periods := per } } }, "ok")
    | _, _, _, _, _, _ => (a, "bad-op")
  | ["migratew", f, cls, b, hx, signer, order] =>
    -- a migration whose target is spelled: class, the bytes spelled, HexToAddress of the string; the signer signed
    -- (prefix, from, bytes) (or the swapped order)
    match nat? f, nat? cls, nat? b, nat? hx, nat? signer with
    | some f, some cls, some b, some hx, some signer =>
      if order != "ft" && order != "tf" then (a, "bad-op") else
      let fields := if order == "ft" then ["prefix", "from", "to"] else ["prefix", "to", "from"]
      let sig : Nat × List Nat := (signer, signedBytes fields pfxBytes (fun a => [a]) f b)
      let res := migrateMsgP (H := List Nat) (S := Nat × List Nat) id
        (fun h sg => if sg.1 != 0 && sg.2 == h then some sg.1 else none) pfxBytes (fun a => [a]) cfg
        Gen.C14.handlerOrder Gen.C14.migrateHandlers s f { cls := cls, bytes := b, hex := hx } sig
      match res with
      | .ok s' =>
        -- the address the message server derived from the string receives (and is the account the statements create)
        let a' := acceptA Gen.C14.handlerOrder a s' ((parseAt cfg.toParseSrv { cls := cls, bytes := b, hex := hx }).getD hx)
        (a', "ok " ++ showState a')
      | .error e => (a, errName e ++ " " ++ showState a)
    | _, _, _, _, _ => (a, "bad-op")
  | ["txblock", dt, fee, txs, f, t, signer, order] =>
    match nat? dt, nat? fee, nat? txs, nat? f, nat? t, nat? signer with
    | some dt, some fee, some txs, some f, some t, some sg =>
      if order != "ft" && order != "tf" then (a, "bad-op") else
      let (a', r) := txBlockA cfg Gen.C14.handlerOrder Gen.C14.migrateHandlers a dt fee txs f t (sigOkOf f t sg order)
      (a', r ++ " " ++ showState a')
    | _, _, _, _, _, _ => (a, "bad-op")
  | ["genesis"] =>
    -- the migrate module's state exported and imported again (ExportGenesis / InitGenesis as read from the code)
    let a' := { a with s := genesisRoundTrip cfg s }
    (a', "ok " ++ showState a')
  | ["key", x] =>
    -- an account with a public key
    match nat? x with
    | some x => ({ a with s := { s with hasKey := ins s.hasKey x }, accts := ins a.accts x }, "ok")
    | none => (a, "bad-op")
  | ["acct", x] =>
    -- an account (no usable key)
    match nat? x with
    | some x => ({ a with accts := ins a.accts x }, "ok")
    | none => (a, "bad-op")
  | ws =>
    match parseOp ws with
    | some op =>
      let (a', r) := stepA cfg Gen.C14.handlerOrder Gen.C14.migrateHandlers a op
      (a', r ++ " " ++ showState a')
    | none => (a, "bad-op")

def main : IO Unit := runDriver stepLine ({ accts := modAccts } : AState)
