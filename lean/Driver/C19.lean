import FxVerif.Model.C19
import FxVerif.Model.Util
/-! line-protocol driver for the C19 model: `lake env lean --run Driver/C19.lean < ops.txt`
(round 5: the extended protocol — every former line, plus `genesis` and `denom l base h₁ … hₙ`) -/
open FxVerif FxVerif.Model.C19

def step (s : XState) (line : String) : XState × String := xstepLine s line

def main : IO Unit := FxVerif.Util.runDriver step xinit
