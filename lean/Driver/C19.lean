import FxVerif.Model.C19
import FxVerif.Model.Util
/-! line-protocol driver for the C19 model: `lake env lean --run Driver/C19.lean < ops.txt` -/
open FxVerif FxVerif.Model.C19

def step (s : State) (line : String) : State × String := stepLine s line

def main : IO Unit := FxVerif.Util.runDriver step init
