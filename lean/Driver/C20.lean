import FxVerif.Model.C20
import FxVerif.Model.C20Run
import FxVerif.Model.C20Msg
import FxVerif.Gen.C20Msg
import FxVerif.Model.C20Handler
import FxVerif.Gen.C20Handler
import FxVerif.Model.C20Bech32
import FxVerif.Gen.C20Bech32
import FxVerif.Model.Util
/-! line-protocol driver for the C20 model: `lake env lean --run Driver/C20.lean < ops.txt`

* `fee <mode> <msgs> <exempt> <maxBypass> <gas> <feeCoins> <minGasPrices>` → `admit | refuse | panic`
  (mode `c` = CheckTx, `d` = deliver; lists are comma separated, `-` = empty; coins `denom:amount`, prices in 10⁻¹⁸ units);
  evaluated with the definition GENERATED from ante/fees.go
* `nodefee <configured max gas | absent> <msgs> <configured types> <_> <gas> <feeCoins> <minGasPrices>` → the same verdict for the
  checker that app.go WIRES from the configuration (`Gen.C20.wiredCheckTxFeees`, translated from `setAnteHandler`)
* `target <hex>` → `ibc <prefix> <port> <channel>` / `plain <target>` (hex fields)
* `b32 <hex>` → `ok <hex>` / `err`
* `hexstr <hex>` → `ok` / `err` (does `hex.DecodeString` accept the text)
* `modname <hex>` → `ok` / `err` (`ValidateModuleName`); `b32s <hex of 32 bytes>` → hex of `Byte32ToString`
* `pcv <precompile>.<abi method> <ArgsType> <feature>=<value> …` → `ok | err | panic`: verdict of the `Validate` program
  REGENERATED from the Go AST (`Gen/C20Run.lean`) on the decoded argument struct described by the features (keyed by Go
  field name: `len:Tokens=2`, `big:Amount=12` (`big:X=nil` for a nil pointer), `zaddr:Refund=0`, `empty:Receipt=1`,
  `zarr:Target=0`, `num:SortBy=1`, `ext:ValidateModuleName:Chain=1`); `bad-args-type` when the method table generated from
  `NewPrecompiledContract` / `UnpackInput` names a different args struct than the harness decoded into
* `mvb <program> <kind>:<hex key>=<value> …` → `ok | err | panic`: verdict of the validation program REGENERATED from the Go AST
  (`Gen/C20Msg.lean`: `ValidateBasic` of every fx-core message / claim / proposal, interpreted by `Model.C20Msg.runAt`) on the
  decoded message described by the features (`e` = an external validator / expression returned an error or is true, key =
  function and argument paths joined by 0x01; `n` = the Int / Dec / pointer path is nil; `b` = its value; `a` = some coin of
  the set has a nil amount; `l` = length; `u` = number; `s` = bytes of a string field, hex); `bad-prog` for an unknown program
* `hpanic <function> <single|quorum|any>` → `contained` when the regenerated handler inventory (`Gen/C20Handler.lean`) has a site in
  that function, the function is outside the checked certificate `blockReach` (no block hook reaches it), the transaction
  runner recovers first, and — for a vote that completes no quorum — the function is inside `ungatedReach`; otherwise
  `unknown-function | no-site-in-function | block-reachable | behind-quorum-gate | runner-does-not-recover`
* `qtransport grpc|abci <service/method>` → `recovered | escaped`: what becomes of a panic inside a gRPC query handler, answered from the
  regenerated facts about the cosmos-sdk fork (`grpcChain` starts with the recovery interceptor and is built inside the
  re-registered `Handler`; `BaseApp.Query` defers its `recover()` in front of the route to `handleQueryGRPC`)
* `qroute <known 0/1>` → `routed | err | panic`: the crosschain query server's route look-up as regenerated (`qcalls`: the caller's
  `HasRoute` test in front of `GetRoute`, whose body panics on an unknown route)
* `bech <hex>` → `ok <hrp hex> <address bytes hex>` or the error class of `types/bech32.DecodeAndConvert` on that byte string
  (`too-long | too-short | invalid-char | mixed-case | separator | non-charset | checksum | incomplete-group`), computed by
  `Model.C20Bech32.decodeAndConvert`; `bechacc <hex>` → `ok | empty | <class> | prefix | length`: `sdk.AccAddressFromBech32` under
  the regenerated prefix and address length (`Gen.C20Bech32.addressPrefix`, `addrLen`)
* `paddr <hex> <bech32 ok 0/1> <checksum ok 0/1>` → `bech32 | evm | err` (`fxtypes.ParseAddress`)
* `ethaddr <hex> <checksum ok 0/1>` → `ok | empty | wrong-length | invalid-format | checksum` (`contract.ValidateEthereumAddress`)
-/
open FxVerif FxVerif.Util FxVerif.Model.C20Base FxVerif.Model.C20

def parseList (w : String) : List String := if w == "-" then [] else w.splitOn ","

def parseInt (s : String) : Option Int :=
  if s.startsWith "-" then (s.drop 1).toNat?.map (fun n => -(n : Int)) else s.toNat?.map (fun n => (n : Int))

def parsePair (w : String) : Option (String × Int) :=
  match w.splitOn ":" with
  | [d, a] => (parseInt a).map (fun n => (d, n))
  | _ => none

def hexS (s : List Char) : String := hex ((String.ofList s).toUTF8.toList.map (·.toNat))

/-- environment of a `pcv` line: features and program are keyed by the Go field name of the args struct -/
def pcvEnv (kvs : List (String × String)) : FxVerif.Model.C20Args.Env :=
  let get (pfx f : String) : Option String := (kvs.find? (·.1 == pfx ++ f)).map (·.2)
  let nat (pfx f : String) : Nat := ((get pfx f).bind String.toNat?).getD 0
  let flag (pfx f : String) : Bool := (get pfx f) == some "1"
  -- `ValidateModuleName` is MODELLED (computed from the field's bytes, `str:<Field>=<hex>`); `ValAddressFromBech32` (bech32) is
  -- an environment input reported by the harness
  let ext (fn f : String) : Bool :=
    if fn == "ValidateModuleName" then
      match (get "str:" f).bind unhex with
      | some bs => !validateModuleName bs
      | none => true
    else flag ("ext:" ++ fn ++ ":") f
  { len := nat "len:", big := fun f => (get "big:" f).bind parseInt, elemsOk := fun _ => true,
    zeroAddr := flag "zaddr:", emptyStr := flag "empty:", zeroArr := flag "zarr:",
    ext := ext, num := nat "num:" }

def pcv (key tname : String) (feats : List String) : String :=
  match key.splitOn "." with
  | [pc, abi] =>
    match FxVerif.Gen.C20Run.methods.find? (fun m => m.pc == pc && m.abiName == abi) with
    | none => "bad-method"
    | some m =>
      if m.argsType != tname then "bad-args-type" else
      match FxVerif.Model.C20Args.findArgs FxVerif.Gen.C20Run.argsTypes tname with
      | none => "bad-args-type"
      | some t =>
        let kvs := feats.filterMap fun w => match w.splitOn "=" with | [k, v] => some (k, v) | _ => none
        match FxVerif.Model.C20Args.run (pcvEnv kvs) t.prog with
        | .ok => "ok" | .err => "err" | .panic => "panic"
  | _ => "bad-op"

def strHex (s : String) : String := hex (s.toUTF8.toList.map (·.toNat))

/-- environment of an `mvb` line -/
def mvbEnv (kvs : List (String × String)) : FxVerif.Model.C20Msg.Env :=
  let get (k : String) : Option String := (kvs.find? (·.1 == k)).map (·.2)
  let key (kind : String) (parts : List String) : String := kind ++ ":" ++ strHex (String.intercalate "\x01" parts)
  { ext := fun fn args => get (key "e" (fn :: args)) == some "1",
    isNil := fun p => get (key "n" [p]) == some "1",
    big := fun p => ((get (key "b" [p])).bind parseInt).getD 0,
    anyNil := fun p => get (key "a" [p]) == some "1",
    len := fun p => ((get (key "l" [p])).bind String.toNat?).getD 0,
    num := fun p => ((get (key "u" [p])).bind parseInt).getD 0,
    str := fun p => ((get (key "s" [p])).bind unhex).getD [] }

def mvb (name : String) (feats : List String) : String :=
  if (FxVerif.Gen.C20Msg.table.find name).isNone then "bad-prog" else
  let kvs := feats.filterMap fun w => match w.splitOn "=" with | [k, v] => some (k, v) | _ => none
  match FxVerif.Model.C20Msg.runAt FxVerif.Gen.C20Msg.table FxVerif.Model.C20Msg.msgFuel name (mvbEnv kvs) with
  | .ok => "ok" | .err => "err" | .panic => "panic" | .cont => "bad-prog"

def step (_ : Unit) (line : String) : Unit × String :=
  match words line with
  | "reset" :: _ => ((), "ok")
  | "mvb" :: name :: feats => ((), mvb name feats)
  | ["paddr", h, b, c] =>
    -- bytes, not code points: Go's `len(address)` and the ASCII regular expression work on bytes
    match (unhex h).map (fun bs => String.ofList (bs.map Char.ofNat)) with
    | some s =>
      ((), match parseAddress (fun _ => b == "1") (fun _ => c == "1") s.toList with
        | .ok false => "bech32" | .ok true => "evm" | .error _ => "err")
    | none => ((), "bad-op")
  | ["ethaddr", h, c] =>
    match (unhex h).map (fun bs => String.ofList (bs.map Char.ofNat)) with
    | some s =>
      ((), match validateEthereumAddress (fun _ => c == "1") s.toList with
        | .ok () => "ok" | .error .empty => "empty" | .error .wrongLength => "wrong-length"
        | .error .invalidFormat => "invalid-format" | .error .checksumMismatch => "checksum")
    | none => ((), "bad-op")
  | ["bech", h] =>
    match unhex h with
    | some bs =>
      ((), match FxVerif.Model.C20Bech32.decodeAndConvert bs with
        | .ok (hrp, bz) => s!"ok {if hrp.isEmpty then "-" else hex hrp} {if bz.isEmpty then "-" else hex bz}"
        | .error e => e.name)
    | none => ((), "bad-op")
  | ["bechacc", h] =>
    match unhex h with
    | some bs =>
      ((), FxVerif.Model.C20Bech32.addressClass (FxVerif.Gen.C20Bech32.addressPrefix.toList.map Char.toNat)
        (fun n => (n : Int) == FxVerif.Gen.C20Bech32.addrLen) bs)
    | none => ((), "bad-op")
  | ["qtransport", "grpc", _] =>
    ((), if FxVerif.Gen.C20Handler.grpcChainInHandler &&
        FxVerif.Gen.C20Handler.grpcChain.head? == some "github.com/grpc-ecosystem/go-grpc-middleware/recovery.UnaryServerInterceptor()"
      then "recovered" else "escaped")
  | ["qtransport", "abci", _] =>
    ((), if FxVerif.Gen.C20Handler.abciQueryRecoversFirst && FxVerif.Gen.C20Handler.abciQueryRoutesGrpc then "recovered" else "escaped")
  | ["qroute", known] =>
    -- every recorded call of a panic-hosting function behind the crosschain query router carries its dominating test
    -- (no panic-hosting callee behind a query at all: nothing to guard)
    let guarded := FxVerif.Gen.C20Handler.qcalls.all (fun c => c.guarded && c.guard != "")
    ((), if known == "1" then "routed" else if guarded then "err" else "panic")
  | ["hpanic", fnName, votes] =>
    match FxVerif.Gen.C20Handler.nodes.find? (·.name == fnName) with
    | none => ((), "unknown-function")
    | some n =>
      ((), if !(FxVerif.Gen.C20Handler.hsites.any (·.fn == n.id)) then "no-site-in-function"
        else if FxVerif.Model.C20Handler.inSet FxVerif.Gen.C20Handler.blockReach n.id then "block-reachable"
        else if votes == "single" && !FxVerif.Model.C20Handler.inSet FxVerif.Gen.C20Handler.ungatedReach n.id then "behind-quorum-gate"
        else if !FxVerif.Gen.C20Handler.runTxRecoversFirst then "runner-does-not-recover"
        else "contained")
  | "pcv" :: key :: tname :: feats => ((), pcv key tname feats)
  | ["fee", mode, msgs, exempt, maxB, gas, fee, prices] =>
    match maxB.toNat?, gas.toNat?, (parseList fee).mapM parsePair, (parseList prices).mapM parsePair with
    | some mb, some g, some fs, some ps =>
      let ctf : CheckTxFeees := ⟨parseList exempt, mb⟩
      let r := FxVerif.Gen.C20.checkTxFee ctf true (mode == "c") (parseList msgs) g
        (fs.map fun p => ⟨p.1, p.2⟩) (ps.map fun p => ⟨p.1, p.2⟩)
      ((), match r with | .accept => "admit" | .refuse => "refuse" | .panic => "panic" | .notFeeTx => "notfeetx")
    | _, _, _, _ => ((), "bad-op")
  | ["nodefee", cfgMax, msgs, cfgTypes, _maxB, gas, fee, prices] =>
    -- the node-level question: the checker is the one app.go WIRES from the configured values (absent = 0 / [])
    match (if cfgMax == "absent" then some 0 else cfgMax.toNat?), gas.toNat?, (parseList fee).mapM parsePair, (parseList prices).mapM parsePair with
    | some cm, some g, some fs, some ps =>
      let ctf := FxVerif.Gen.C20.wiredCheckTxFeees (parseList cfgTypes) cm
      let r := FxVerif.Gen.C20.checkTxFee ctf true true (parseList msgs) g (fs.map fun p => ⟨p.1, p.2⟩) (ps.map fun p => ⟨p.1, p.2⟩)
      ((), match r with | .accept => "admit" | .refuse => "refuse" | .panic => "panic" | .notFeeTx => "notfeetx")
    | _, _, _, _ => ((), "bad-op")
  | ["target", h] =>
    match unhexStr h with
    | some s =>
      let t := parseFxTarget s.toList
      ((), if t.isIBC then s!"ibc {hexS t.pfx} {hexS t.sourcePort} {hexS t.sourceChannel}" else s!"plain {hexS t.target}")
    | none => ((), "bad-op")
  | ["b32", h] =>
    match unhex h with
    | some bs => ((), match strToByte32 bs with | .ok out => "ok " ++ hex out | .error _ => "err")
    | none => ((), "bad-op")
  | ["modname", h] =>
    match unhex h with
    | some bs => ((), if validateModuleName bs then "ok" else "err")
    | none => ((), "bad-op")
  | ["b32s", h] =>
    match unhex h with
    | some bs => ((), hex (byte32ToString bs))
    | none => ((), "bad-op")
  | ["hexstr", h] =>
    match unhexStr h with
    | some s => ((), if isHexString s.toList then "ok" else "err")
    | none => ((), "bad-op")
  | _ => ((), "bad-op")

def main : IO Unit := runDriver step ()
