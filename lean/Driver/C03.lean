import FxVerif.Model.C03
import FxVerif.Model.Util
/-! line-protocol driver for the C03 model: `lake env lean --run Driver/C03.lean < ops.txt`

One claim per line (text fields hex-encoded, one `Char` per byte); the answer is the hex SHA-256 of the path generated
from the Go source, and the model's `ValidateBasic` verdict (`ck` = the checksum bit the model does not compute). -/
open FxVerif FxVerif.Util FxVerif.Model.C03

def str (s : String) : Option Str := (unhex s).map (·.map Char.ofNat)

def intOf (s : String) : Option (Option Int) := if s == "nil" then some none else s.toInt?.map some

def listOf {α : Type} (f : String → Option α) (s : String) : Option (List α) :=
  match s.splitOn "," with
  | "L" :: items => items.mapM f
  | _ => none

def memberOf (s : String) : Option BridgeValidator :=
  match s.splitOn ":" with
  | [p, a] => do pure ⟨← p.toNat?, ← str a⟩
  | _ => none

def boolOf (s : String) : Option Bool := if s == "1" then some true else if s == "0" then some false else none

def answer (path : Str) (chain : Str) (valid : AddrKind → Bool) (ck : Bool) : String :=
  let v := match chainKind chain with
    | some k => valid k && ck
    | none => false
  hashHex path ++ " " ++ (if v then "ok" else "invalid")

def claimLine : List String → Option String
  | ["stf", ch, br, en, bh, tc, amount, snd, rcv, tibc, ck] => do
    let c : MsgSendToFxClaim := { EventNonce := (← en.toNat?), BlockHeight := (← bh.toNat?), TokenContract := (← str tc), Amount := (← intOf amount), Sender := (← str snd), Receiver := (← str rcv), TargetIbc := (← str tibc), BridgerAddress := (← str br), ChainName := (← str ch) }
    pure (answer c.path c.ChainName (fun k => c.valid k) (← boolOf ck))
  | ["bc", ch, br, en, bh, snd, rf, tcs, amts, to, data, val, memo, org, ck] => do
    let c : MsgBridgeCallClaim := { ChainName := (← str ch), BridgerAddress := (← str br), EventNonce := (← en.toNat?), BlockHeight := (← bh.toNat?), Sender := (← str snd), Refund := (← str rf), TokenContracts := (← listOf str tcs), Amounts := (← listOf intOf amts), To := (← str to), Data := (← str data), Value := (← intOf val), Memo := (← str memo), TxOrigin := (← str org) }
    pure (answer c.path c.ChainName (fun k => c.valid k) (← boolOf ck))
  | ["bcr", ch, br, en, bh, n, org, ok, cause, ck] => do
    let c : MsgBridgeCallResultClaim := { ChainName := (← str ch), BridgerAddress := (← str br), EventNonce := (← en.toNat?), BlockHeight := (← bh.toNat?), Nonce := (← n.toNat?), TxOrigin := (← str org), Success := (← boolOf ok), Cause := (← str cause) }
    pure (answer c.path c.ChainName (fun k => c.valid k) (← boolOf ck))
  | ["ste", ch, br, en, bh, bn, tc, ck] => do
    let c : MsgSendToExternalClaim := { EventNonce := (← en.toNat?), BlockHeight := (← bh.toNat?), BatchNonce := (← bn.toNat?), TokenContract := (← str tc), BridgerAddress := (← str br), ChainName := (← str ch) }
    pure (answer c.path c.ChainName (fun k => c.valid k) (← boolOf ck))
  | ["bt", ch, br, en, bh, tc, name, sym, dec, chan, ck] => do
    let c : MsgBridgeTokenClaim := { EventNonce := (← en.toNat?), BlockHeight := (← bh.toNat?), TokenContract := (← str tc), Name := (← str name), Symbol := (← str sym), Decimals := (← dec.toNat?), BridgerAddress := (← str br), ChannelIbc := (← str chan), ChainName := (← str ch) }
    pure (answer c.path c.ChainName (fun k => c.valid k) (← boolOf ck))
  | ["osu", ch, br, en, bh, osn, ms, ck] => do
    let c : MsgOracleSetUpdatedClaim := { EventNonce := (← en.toNat?), BlockHeight := (← bh.toNat?), OracleSetNonce := (← osn.toNat?), Members := (← listOf memberOf ms), BridgerAddress := (← str br), ChainName := (← str ch) }
    pure (answer c.path c.ChainName (fun k => c.valid k) (← boolOf ck))
  | ["tgt", raw] => do
    -- `fxtypes.ParseFxTarget(raw, true)` as `SendToFxExecuted` calls it: routing decision and rendered forms
    let t := Go.types_ParseFxTarget (← str raw) true
    let h (x : Str) : String := hex (x.map Char.toNat)
    pure s!"{if t.isIBC then "ibc" else "local"} {h (Go.types_FxTarget_GetTarget t)} {h t.Prefix} {h t.SourcePort} {h t.SourceChannel} {h (Go.types_FxTarget_String t)}"
  | _ => none

def step (st : Unit) (line : String) : Unit × String :=
  match words line with
  | "reset" :: _ => (st, "ok")
  | ws => (st, (claimLine ws).getD "bad-op")

def main : IO Unit := runDriver step ()
