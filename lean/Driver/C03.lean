import FxVerif.Model.C03Attest
import FxVerif.Model.C03Addr
import FxVerif.Model.Util
/-! line-protocol driver for the C03 model: `lake env lean --run Driver/C03.lean < ops.txt`

* one claim per line (text fields hex-encoded, one `Char` per byte): the answer is the hex SHA-256 of the path generated
  from the Go source, and the model's `ValidateBasic` verdict — the regenerated `validGen` (`ck` = the checksum bit the
  model does not compute);
* `tgt <hex>`: `fxtypes.ParseFxTarget(<text>, true)` as `SendToFxExecuted` calls it;
* `cfg <total> <power>:<external address> …`, `last <n>`, `vote <oracle> <handlerPanics> <claim line>`: the attestation
  model (`Model/C03Attest.lean`) with `H` = SHA-256; the answer is the result kind, the last observed nonce, the hash of
  the executed claim (if this vote made an attestation observed), the claim stored for `ExecuteClaim` and the attestation
  table of the nonce under vote; `pow <oracle> <power|none>` / `total <t>`: power changes between votes (delegation,
  slashing, removal — environment); `run <nonce> <handlerFails>`: `ExecuteClaim`;
* `lhash <claim line>`: the claim hash of the release before b7515bc; `iatt <nonce> <hash> <voters> <claim line>`: an open
  attestation already stored under `hash` (left by an earlier release); `olast <oracle> <n>`: an oracle's last voted nonce;
* `hbt <module> <store k:v,…|-> <bt claim line>`: the regenerated statement list of `AddBridgeTokenExecuted`, interpreted;
* `hdep <tag> <field> <dep|indep>`: a dependence of the real handlers on a field must be listed in the regenerated view;
* `akey <nonce> <hash hex>` / `pkey <nonce>`: the bytes of `GetAttestationKey` / `GetPendingExecuteClaimKey` from the regenerated
  layouts;
* `xaddr <chain> <hex text> <ck>`: `ValidateExternalAddr` / `ExternalAddrToHexAddr` / `ExternalAddrToAccAddr` of the chain's address
  class on one text (`Model/C03Addr.lean`): tron entirely in the model (base58 decoding, the base58check checksum with the
  executable SHA-256, the version byte dropped), eth with `ck` = the text is its own EIP-55 form (Keccak is not modelled). -/
open FxVerif FxVerif.Util FxVerif.Model.C03

def str (s : String) : Option Str := (unhex s).map (·.map Char.ofNat)

def intOf (s : String) : Option (Option Int) := if s == "nil" then some none else s.toInt?.map some

def listOf {α : Type} (f : String → Option α) (s : String) : Option (List α) :=
  match s.splitOn "," with
  | "L" :: items => items.mapM f
  | _ => none

def memberOf (s : String) : Option BridgeValidator :=
  match s.splitOn ":" with
  | [p, a] => do pure ⟨← p.toNat?, ← str a⟩
  | _ => none

def boolOf (s : String) : Option Bool := if s == "1" then some true else if s == "0" then some false else none

/-- a claim line: the claim, its `ChainName`, and the checksum bit -/
def parseClaim : List String → Option (AnyClaim × Str × Bool)
  | ["stf", ch, br, en, bh, tc, amount, snd, rcv, tibc, ck] => do
    let c : MsgSendToFxClaim := { EventNonce := (← en.toNat?), BlockHeight := (← bh.toNat?), TokenContract := (← str tc), Amount := (← intOf amount), Sender := (← str snd), Receiver := (← str rcv), TargetIbc := (← str tibc), BridgerAddress := (← str br), ChainName := (← str ch) }
    pure (.stf c, c.ChainName, ← boolOf ck)
  | ["bc", ch, br, en, bh, snd, rf, tcs, amts, to, data, val, memo, org, ck] => do
    let c : MsgBridgeCallClaim := { ChainName := (← str ch), BridgerAddress := (← str br), EventNonce := (← en.toNat?), BlockHeight := (← bh.toNat?), Sender := (← str snd), Refund := (← str rf), TokenContracts := (← listOf str tcs), Amounts := (← listOf intOf amts), To := (← str to), Data := (← str data), Value := (← intOf val), Memo := (← str memo), TxOrigin := (← str org) }
    pure (.bc c, c.ChainName, ← boolOf ck)
  | ["bcr", ch, br, en, bh, n, org, ok, cause, ck] => do
    let c : MsgBridgeCallResultClaim := { ChainName := (← str ch), BridgerAddress := (← str br), EventNonce := (← en.toNat?), BlockHeight := (← bh.toNat?), Nonce := (← n.toNat?), TxOrigin := (← str org), Success := (← boolOf ok), Cause := (← str cause) }
    pure (.bcr c, c.ChainName, ← boolOf ck)
  | ["ste", ch, br, en, bh, bn, tc, ck] => do
    let c : MsgSendToExternalClaim := { EventNonce := (← en.toNat?), BlockHeight := (← bh.toNat?), BatchNonce := (← bn.toNat?), TokenContract := (← str tc), BridgerAddress := (← str br), ChainName := (← str ch) }
    pure (.ste c, c.ChainName, ← boolOf ck)
  | ["bt", ch, br, en, bh, tc, name, sym, dec, chan, ck] => do
    let c : MsgBridgeTokenClaim := { EventNonce := (← en.toNat?), BlockHeight := (← bh.toNat?), TokenContract := (← str tc), Name := (← str name), Symbol := (← str sym), Decimals := (← dec.toNat?), BridgerAddress := (← str br), ChannelIbc := (← str chan), ChainName := (← str ch) }
    pure (.bt c, c.ChainName, ← boolOf ck)
  | ["osu", ch, br, en, bh, osn, ms, ck] => do
    let c : MsgOracleSetUpdatedClaim := { EventNonce := (← en.toNat?), BlockHeight := (← bh.toNat?), OracleSetNonce := (← osn.toNat?), Members := (← listOf memberOf ms), BridgerAddress := (← str br), ChainName := (← str ch) }
    pure (.osu c, c.ChainName, ← boolOf ck)
  | _ => none

def answer (c : AnyClaim) (chain : Str) (ck : Bool) : String :=
  let v := match chainKind chain with
    | some k => c.valid k && ck
    | none => false
  hashHex c.path ++ " " ++ (if v then "ok" else "invalid")

structure DState where
  st : AState String := {}
  /-- the nonce under vote (`last n` sets it to `n + 1`) -/
  focus : Nat := 0

def insertSorted (x : String) : List String → List String
  | [] => [x]
  | y :: r => if x ≤ y then x :: y :: r else y :: insertSorted x r

def attTable (s : AState String) (n : Nat) : String :=
  let rows := (s.atts.filter (·.nonce == n)).map fun a =>
    s!"{(a.hash.take 16).toString}:{".".intercalate (a.votes.map fun v => toString v.1)}:{if a.observed then "1" else "0"}"
  match rows.foldr insertSorted [] with
  | [] => "-"
  | rs => ",".intercalate rs

/-- the claim stored for `ExecuteClaim` under nonce `n`, by the first 16 hex digits of its hash -/
def pendOf (s : AState String) (n : Nat) : String :=
  match s.pending.lookup n with
  | some c => ((hashHex c.path).take 16).toString
  | none => "-"

def cfgEntry (s : String) : Option (Nat × Str) :=
  match s.splitOn ":" with
  | [p, a] => do pure (← p.toNat?, ← str a)
  | _ => none

def kvOf (s : String) : Option (Str × Str) :=
  match s.splitOn ":" with
  | [k, v] => do pure (← str k, ← str v)
  | _ => none

def indexed {α : Type} : Nat → List α → List (Nat × α)
  | _, [] => []
  | i, x :: r => (i, x) :: indexed (i + 1) r

def opLine (d : DState) : List String → Option (DState × String)
  | ["tgt", raw] => do
    -- `fxtypes.ParseFxTarget(raw, true)` as `SendToFxExecuted` calls it: routing decision and rendered forms
    let t := Go.types_ParseFxTarget (← str raw) true
    let h (x : Str) : String := hex (x.map Char.toNat)
    pure (d, s!"{if t.isIBC then "ibc" else "local"} {h (Go.types_FxTarget_GetTarget t)} {h t.Prefix} {h t.SourcePort} {h t.SourceChannel} {h (Go.types_FxTarget_String t)}")
  | "cfg" :: total :: entries => do
    let es ← entries.mapM cfgEntry
    let ix := indexed 0 es
    pure ({ d with st := { d.st with total := (← total.toNat?), powers := ix.map (fun p => (p.1, p.2.1)), exts := es.map (·.2) } }, "ok")
  | ["last", n, h] => do
    -- as `last n`, with the external block height recorded for the last observed event
    let n ← n.toNat?
    pure ({ st := { d.st with lastObserved := n, lastHeight := (← h.toNat?), lastByOracle := d.st.powers.map (fun p => (p.1, n)) }, focus := n + 1 }, "ok")
  | ["last", n] => do
    let n ← n.toNat?
    -- the chain has observed everything up to `n`, and so has every configured oracle
    pure ({ st := { d.st with lastObserved := n, lastByOracle := d.st.powers.map (fun p => (p.1, n)) }, focus := n + 1 }, "ok")
  | "vote" :: o :: hp :: claim => do
    let (c, _, _) ← parseClaim claim
    let before := d.st.executed.length
    let (s', res) := vote (fun c => hashHex c.path) (fun a b => decide (a ≤ b)) d.st (← o.toNat?) c (← boolOf hp)
    let kind := match res with
      | .ok => "ok" | .logicCheck => "err:logic-check" | .nonContiguous => "err:non-contiguous" | .panic => "panic"
    let exec := if s'.executed.length > before then ((hashHex c.path).take 16).toString else "-"
    pure ({ d with st := s' }, s!"{kind} last={s'.lastObserved} h={s'.lastHeight} exec={exec} pend={pendOf s' d.focus} atts={attTable s' d.focus}")
  | "lhash" :: claim => do
    -- the claim hash the release before b7515bc computed (Model/C03.lean legacy paths): what an attestation that was open at
    -- the upgrade is stored under
    let (c, _, _) ← parseClaim claim
    pure (d, hashHex c.legacyPath)
  | "iatt" :: n :: h :: voters :: claim => do
    -- an open attestation already in the store under hash `h` (filed by an earlier release / imported): recorded claim and
    -- the oracles whose votes it holds
    let (c, _, _) ← parseClaim claim
    let n ← n.toNat?
    let vs ← if voters == "-" then pure [] else (voters.splitOn ".").mapM (·.toNat?)
    let a : Att String := { nonce := n, hash := h, claim := c, votes := vs.map (fun o => (o, c)), observed := false }
    let s' := { d.st with atts := setAtt d.st.atts a }
    pure ({ d with st := s' }, s!"ok atts={attTable s' n}")
  | ["olast", o, n] => do
    -- environment: the last event nonce oracle `o` has voted for
    pure ({ d with st := stepWith [] [] (fun c => hashHex c.path) (fun _ _ => true) d.st (.setOracleLast (← o.toNat?) (some (← n.toNat?))) }, "ok")
  | ["pow", o, p] => do
    -- environment: the power `GetOracle(o).GetPower()` now has (`none`: the oracle is no longer found)
    let o ← o.toNat?
    let pw : Option Nat ← if p == "none" then pure none else (p.toNat?).map some
    pure ({ d with st := stepWith [] [] (fun c => hashHex c.path) (fun _ _ => true) d.st (.setPower o pw) }, "ok")
  | ["total", t] => do
    pure ({ d with st := { d.st with total := (← t.toNat?) } }, "ok")
  | "hbt" :: m :: pre :: claim => do
    -- `Keeper.AddBridgeTokenExecuted` of module `m` on a bridge-denom store holding `pre`: the regenerated statement list
    -- interpreted (`runAddBridgeToken`)
    let (c, _, _) ← parseClaim claim
    let st ← if pre == "-" then pure [] else (pre.splitOn ",").mapM kvOf
    match c with
    | .bt b =>
      let h (x : Str) : String := hex (x.map Char.toNat)
      match runAddBridgeToken (← str m) st b with
      | .ok w => pure (d, "ok " ++ ",".intercalate ((w.map fun p => h p.1 ++ "=" ++ h p.2).foldr insertSorted []))
      | .err => pure (d, "err")
      | .stuck => pure (d, "stuck")
    | _ => none
  | ["hdep", tag, field, finding] => do
    -- the harness changed only `field` of a claim of type `tag` and ran the real handlers on both from one state:
    -- `finding` = dep / indep.  A dependence on a field the REGENERATED view does not list means the translator's view is
    -- incomplete (correspondence break); `*` in the view = the whole claim
    let vf ← AnyClaim.viewFieldsOfTag tag
    pure (d, if finding == "indep" || vf.contains field || vf.contains "*" then "ok" else "view-misses-field")
  | ["xaddr", chain, raw, ck] => do
    let s ← str raw
    let ck ← boolOf ck
    let h (x : List Nat) : String := hex x
    match chainKind (← str chain) with
    | some .tron => pure (d, if Addr.tronValid s then s!"ok {h (Addr.tronHex s)} {h (Addr.tronAcc s)}" else "invalid")
    | some .eth => pure (d, if isEthAddr s && ck then s!"ok {h (Addr.ethHex s)} {h (Addr.ethHex s)}" else "invalid")
    | _ => pure (d, "invalid")
  | ["akey", n, h] => do
    -- `types.GetAttestationKey(n, h)`: the regenerated layout interpreted by the model
    pure (d, hex (keyBytes (← n.toNat?) (← unhex h) FxVerif.Gen.C03.attestationKeyParts))
  | ["pkey", n] => do
    pure (d, hex (keyBytes (← n.toNat?) [] FxVerif.Gen.C03.pendingClaimKeyParts))
  | ["run", n, fails] => do
    let n ← n.toNat?
    let had := (d.st.pending.lookup n).isSome
    let fails ← boolOf fails
    let s' := execute d.st n fails
    let kind := if !had then "none" else if fails then "err" else "ok"
    pure ({ d with st := s' }, s!"{kind} pend={pendOf s' n} ran={s'.ran.length}")
  | ws => do
    let (c, chain, ck) ← parseClaim ws
    pure (d, answer c chain ck)

def step (d : DState) (line : String) : DState × String :=
  match words line with
  | "reset" :: _ => ({}, "ok")
  | ws => (opLine d ws).getD (d, "bad-op")

def main : IO Unit := runDriver step {}
