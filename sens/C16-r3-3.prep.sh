#!/bin/bash
# prepares the patched copy of the dependency module cosmossdk.io/x/upgrade that sens/C16-r3-3.diff points go.mod at
# (a dependency bump that weakens a guard: MsgCancelUpgrade also accepts the upgrade module's own account)
set -e
MC=$(GOFLAGS=-mod=mod go env GOMODCACHE)
D=/tmp/wt/g16-upgrade
rm -rf $D; cp -r $MC/cosmossdk.io/x/upgrade@v0.1.4 $D; chmod -R u+w $D
python3 - <<PY
p="$D/keeper/msg_server.go"
s=open(p).read()
old='''func (k msgServer) CancelUpgrade(ctx context.Context, msg *types.MsgCancelUpgrade) (*types.MsgCancelUpgradeResponse, error) {
	if k.authority != msg.Authority {'''
new='''func (k msgServer) CancelUpgrade(ctx context.Context, msg *types.MsgCancelUpgrade) (*types.MsgCancelUpgradeResponse, error) {
	// the module may cancel the plan it scheduled itself
	if k.authority != msg.Authority && msg.Authority != authtypes.NewModuleAddress(types.ModuleName).String() {'''
assert old in s
s=s.replace(old,new,1)
s=s.replace('import (','import (\n\tauthtypes "github.com/cosmos/cosmos-sdk/x/auth/types"',1)
open(p,"w").write(s)
PY
echo prepared $D
